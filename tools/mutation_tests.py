#!/venv/bin/python
"""Second stage of the mutation survey (development aid): which survivors of the static rules also
survive the repository's own tests?  Those are the realistic holes - changes that compile, pass
the tests that exercise the mutated module, and are invisible to every rule.

    tools/mutation_tests.py /tmp/ms/C07.json [--jobs 6] [--out /tmp/ms/C07.tests.json] [--ops delete,cmp,...]

For every survivor the mutated module is written into a private copy of the package under /tmp
(never /repo), the test files that exercise that module are run with PYTHONPATH pointing at the copy,
and the copy is removed.  Output: the list of mutants that no rule and no test noticed.
"""

import argparse
import json
import multiprocessing
import os
import shutil
import subprocess
import sys
import tempfile

sys.path.insert(0, os.path.join(os.path.dirname(os.path.abspath(__file__)), ".."))
sys.path.insert(0, os.path.dirname(os.path.abspath(__file__)))
sys.setrecursionlimit(10000)

import mutation_survey as ms  # noqa: E402

TESTS_FOR = {
    "strax/mailbox.py": ["tests/test_mailbox.py", "tests/test_core.py", "tests/test_multi_output.py"],
    "strax/chunk.py": ["tests/test_general_processing.py", "tests/test_core.py", "tests/test_storage.py", "tests/test_saving.py", "tests/test_superruns.py", "tests/test_down_chunk_plugin.py", "tests/test_overlap_plugin.py"],
    "strax/plugins/plugin.py": ["tests/test_core.py", "tests/test_multi_output.py", "tests/test_loop_plugins.py", "tests/test_overlap_plugin.py", "tests/test_down_chunk_plugin.py", "tests/test_inline_plugin.py", "tests/test_superruns.py"],
    "strax/plugins/overlap_window_plugin.py": ["tests/test_overlap_plugin.py", "tests/test_multi_output.py"],
    "strax/plugins/down_chunking_plugin.py": ["tests/test_down_chunk_plugin.py"],
    "strax/plugins/loop_plugin.py": ["tests/test_loop_plugins.py"],
    "strax/plugins/exhaust_plugin.py": ["tests/test_exhaust_plugin.py", "tests/test_core.py"],
    "strax/plugins/parrallel_source_plugin.py": ["tests/test_inline_plugin.py", "tests/test_core.py"],
    "strax/context.py": ["tests/test_context.py", "tests/test_core.py", "tests/test_superruns.py", "tests/test_storage.py", "tests/test_saving.py", "tests/test_multi_output.py", "tests/test_options.py", "tests/test_utils.py"],
    "strax/storage/common.py": ["tests/test_storage.py", "tests/test_saving.py", "tests/test_core.py", "tests/test_superruns.py", "tests/test_context.py"],
    "strax/storage/files.py": ["tests/test_storage.py", "tests/test_saving.py", "tests/test_core.py", "tests/test_superruns.py"],
    "strax/storage/file_rechunker.py": ["tests/test_storage.py"],
    "strax/io.py": ["tests/test_storage.py", "tests/test_saving.py", "tests/test_core.py"],
    "strax/utils.py": ["tests/test_utils.py", "tests/test_core.py", "tests/test_context.py", "tests/test_general_processing.py", "tests/test_storage.py"],
    "strax/run_selection.py": ["tests/test_superruns.py", "tests/test_context.py", "tests/test_core.py"],
    "strax/processors/threaded_mailbox.py": ["tests/test_core.py", "tests/test_multi_output.py", "tests/test_inline_plugin.py", "tests/test_storage.py"],
    "strax/processors/single_thread.py": ["tests/test_core.py", "tests/test_multi_output.py", "tests/test_superruns.py"],
    "strax/processors/post_office.py": ["tests/test_core.py", "tests/test_multi_output.py", "tests/test_superruns.py"],
    "strax/processing/general.py": ["tests/test_general_processing.py", "tests/test_core.py", "tests/test_storage.py"],
    "strax/processing/hitlets.py": ["tests/test_hitlet.py"],
    "strax/processing/pulse_processing.py": ["tests/test_pulse_processing.py", "tests/test_lone_hit_integration.py"],
    "strax/processing/data_reduction.py": ["tests/test_data_reduction.py"],
    "strax/processing/peak_building.py": ["tests/test_peak_processing.py"],
    "strax/processing/peak_merging.py": ["tests/test_peak_merging.py", "tests/test_peak_processing.py"],
    "strax/processing/peak_splitting.py": ["tests/test_peak_splitting.py", "tests/test_peak_processing.py"],
    "strax/sort_enforcement.py": ["tests/test_sort.py"],
}
DEFAULT_TESTS = ["tests/test_core.py"]
ROOT = "/repo"
_SRC = {}


def _unparsed(path):
    if path not in _SRC:
        import ast
        _SRC[path] = ast.unparse(ast.parse(open(os.path.join(ROOT, path)).read()))
    return _SRC[path]


def _job(item):
    path, func, idx, op, desc = item["path"], item["func"], item["idx"], item["op"], item["desc"]
    src = _unparsed(path)
    new = ms.apply_mutation(src, func, idx, op)
    if new is None:
        return dict(item, tests="invalid")
    tmp = tempfile.mkdtemp(prefix="mut_", dir="/tmp")
    try:
        shutil.copytree(os.path.join(ROOT, "strax"), os.path.join(tmp, "strax"), ignore=shutil.ignore_patterns("__pycache__"))
        shutil.copytree(os.path.join(ROOT, "tests"), os.path.join(tmp, "tests"), ignore=shutil.ignore_patterns("__pycache__"))
        for extra in ("pyproject.toml", "setup.cfg", "conftest.py", "pytest.ini"):
            if os.path.exists(os.path.join(ROOT, extra)):
                shutil.copy(os.path.join(ROOT, extra), tmp)
        with open(os.path.join(tmp, path), "w") as fh:
            fh.write(new)
        tests = [t for t in TESTS_FOR.get(path, DEFAULT_TESTS) if os.path.exists(os.path.join(tmp, t))]
        env = dict(os.environ, PYTHONPATH=tmp, NUMBA_CACHE_DIR=os.path.join(tmp, ".nbcache"))
        try:
            r = subprocess.run(["/venv/bin/python", "-m", "pytest", "-q", "-x", "-p", "no:cacheprovider", "--timeout=300", "--deselect", "tests/test_core.py::test_datadirectory_deleted"] + tests,
                               cwd=tmp, env=env, capture_output=True, text=True, timeout=1500)
            out = r.stdout[-1500:]
        except subprocess.TimeoutExpired:
            return dict(item, tests="timeout")
        # known always-failing tests must not count as kills: compare the failing ids with the baseline list
        failed = {ln.split(" ")[1].split(" - ")[0] for ln in r.stdout.splitlines() if ln.startswith("FAILED ") or ln.startswith("ERROR ")}
        failed = {f for f in failed if not any(f.startswith(k) for k in ALWAYS_FAIL)}
        return dict(item, tests="killed" if failed else "survived", failed=sorted(failed)[:3])
    finally:
        shutil.rmtree(tmp, ignore_errors=True)


ALWAYS_FAIL = [
    "tests/test_context.py::test_register_all_no_defaults_and_allowed", "tests/test_context.py::test_register_no_defaults", "tests/test_context.py::test_register_with_defaults_and_allowed",
    "tests/test_context.py::test_scan_runs__provided_dtypes__available_for_run", "tests/test_core.py::test_datadirectory_deleted", "tests/test_core.py::test_filestore", "tests/test_core.py::test_fuzzy_matching",
    "tests/test_superruns.py::TestSuperRuns::test_select_runs_with_superruns", "tests/test_utils.py::TestMultiRun::test_multi_run_memory_profile",
]


def main():
    ap = argparse.ArgumentParser()
    ap.add_argument("survey_json")
    ap.add_argument("--jobs", type=int, default=6)
    ap.add_argument("--out", default="")
    ap.add_argument("--ops", default="")
    ap.add_argument("--funcs", default="")
    a = ap.parse_args()
    data = json.load(open(a.survey_json))
    todo = [d for d in data if d["status"] == "survived"]
    if a.ops:
        ops = set(a.ops.split(","))
        todo = [d for d in todo if d["op"].split(":")[0] in ops]
    if a.funcs:
        fs = set(a.funcs.split(","))
        todo = [d for d in todo if d["func"] in fs]
    items = [dict(path=d["path"], func=d["func"], idx=d["idx"], op=d["op"], desc=d["desc"]) for d in todo]
    print(f"# {len(items)} static survivors to run against the tests", flush=True)
    with multiprocessing.get_context("fork").Pool(a.jobs) as pool:
        res = pool.map(_job, items, chunksize=1)
    surv = [r for r in res if r["tests"] == "survived"]
    print(f"# killed by tests {sum(r['tests'] == 'killed' for r in res)}, survive tests AND rules {len(surv)}, timeout {sum(r['tests'] == 'timeout' for r in res)}")
    cur = None
    for r in surv:
        if (r["path"], r["func"]) != cur:
            cur = (r["path"], r["func"])
            print(f"## {r['path']}::{r['func']}")
        print(f"   SS {r['op'].split(':')[0]:8s} {r['desc']}")
    if a.out:
        json.dump(res, open(a.out, "w"), indent=1)


if __name__ == "__main__":
    main()
