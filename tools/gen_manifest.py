#!/venv/bin/python
"""Generate /verif/MANIFEST.json from sa/registry.py and validate it against the schema."""
import json
import os
import sys

ROOT = os.path.dirname(os.path.dirname(os.path.abspath(__file__)))
sys.path.insert(0, ROOT)
from sa.registry import CLAIMED, NOT_APPLICABLE, PENDING  # noqa: E402

BASELINE = (
    "cd /repo && /venv/bin/python -m pytest -ra -q -p no:cacheprovider --timeout=900 "
    "--continue-on-collection-errors"
)


def main():
    ids = [json.loads(l)["id"] for l in open(os.path.join(ROOT, "properties.jsonl"))]
    checks = []
    for pid in ids:
        if pid not in CLAIMED:
            continue
        c = CLAIMED[pid]
        checks.append(
            {
                "property_id": pid,
                "quick_cmd": f"/venv/bin/python /verif/check {pid} --tier quick",
                "thorough_cmd": f"/venv/bin/python /verif/check {pid} --tier thorough",
                "evidence_file": f"/verif/evidence/{pid}.json",
                "replay_cmd_template": f"/venv/bin/python /verif/check {pid} --replay {{path}}",
                "engine": "sa",
                "level_claimed": {
                    "category": "other",
                    "text": c["text"],
                    "design_ref": c.get("design_ref", "DESIGN.md section 4"),
                },
                "level_note": c["note"],
                "technique": c["technique"],
            }
        )
    na = []
    for pid in ids:
        if pid in CLAIMED:
            continue
        reason = NOT_APPLICABLE.get(pid) or PENDING.get(pid)
        if reason is None:
            raise SystemExit(f"{pid} is neither claimed nor listed as not applicable")
        na.append({"property_id": pid, "reason": reason})
    man = {
        "version": 1,
        "setup_cmd": "true",
        "hooks": {
            "guard": "AXFOUNDATION_STRAX_VERIF",
            "enable": "none needed: the checks are static and never execute strax; no hook was added to /repo",
            "baseline_off_cmd": BASELINE,
            "source_commits": [],
            "add_only": True,
        },
        "engines": [
            {
                "name": "sa",
                "path": "/verif/sa",
                "serves_properties": [c["property_id"] for c in checks],
                "kind_free_text": (
                    "repository-specific static analysis on Python ast (stdlib only): program index "
                    "and resolver, statement CFG with guard edges, dominators / cut-set path "
                    "queries, local provenance, lockset and effect summaries, finite ordering-domain "
                    "enumeration, in-memory mutation witnesses"
                ),
            }
        ],
        "checks": checks,
        "not_applicable": na,
        "notes": (
            "All checks parse /repo/strax from the current working tree on every run and never "
            "import or execute it.  Exit 0 held (KNOWN-FINDING lines allowed), 1 VIOLATION, "
            "2 ANALYSIS-ERROR (anchor vanished / rule vacuous / internal error).  Genuine defects "
            "found by the rules were repaired in /repo as 'fix:' commits and are listed in "
            "known_findings.json under 'fixed'."
        ),
    }
    path = os.path.join(ROOT, "MANIFEST.json")
    with open(path, "w") as f:
        json.dump(man, f, indent=1)
        f.write("\n")
    print(f"wrote {path}: {len(checks)} checks, {len(na)} not applicable")


if __name__ == "__main__":
    main()
