#!/venv/bin/python
"""Negative witnesses: run every property's rules on behaviour-preserving transformations of the
whole package and report findings that do not occur on the untransformed tree."""
import os, sys, time
sys.path.insert(0, os.path.dirname(os.path.dirname(os.path.abspath(__file__))))
from sa.index import Repo, AnalysisError
from sa.main import PROPS, run_rules
from sa.refactor import TRANSFORMS, transform_sources

def main():
    root = sys.argv[1] if len(sys.argv) > 1 else "/repo"
    which = sys.argv[2:] or list(TRANSFORMS)
    base = Repo(root)
    srcs = {rel: m.source for rel, m in base.modules.items()}
    props = [p for p in PROPS if p != "C19"]
    if os.environ.get("PROPS"):
        props = os.environ["PROPS"].split(",")
    baseline = {}
    for p in props:
        chk, _ = run_rules(p, Repo(root), "quick")
        new, known = chk.split_findings()
        if new:
            print(f"[baseline] {p}: {len(new)} unexpected finding(s) on the untransformed tree")
        baseline[p] = {f.key for f in chk.findings}
    bad = 0
    for w in which:
        ov = transform_sources(root, srcs, w)
        for p in props:
            t0 = time.time()
            try:
                chk, _ = run_rules(p, Repo(root, overrides=ov), "quick")
                fresh = [f for f in chk.findings if f.key not in baseline[p]]
                lost = baseline[p] - {f.key for f in chk.findings}
            except AnalysisError as e:
                print(f"[{w}] {p}: ANALYSIS-ERROR {e}")
                bad += 1
                continue
            for f in fresh:
                bad += 1
                print(f"[{w}] {p}: FALSE ALARM {f.rule} {f.func}: {f.construct[:80]} -> {f.message[:120]}")
            if lost:
                print(f"[{w}] {p}: {len(lost)} baseline finding(s) disappeared")
    print("total problems:", bad)
    return 1 if bad else 0

if __name__ == "__main__":
    sys.exit(main())
